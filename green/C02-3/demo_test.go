// Demo for C02, change 3: orbits are merged by a local helper (two finds instead of
// four) which, on equal ranks, keeps the SMALLER root; the old code went through
// disjoint.Set.UnionBuffered(i, image) where the root of the image won the tie.
//
// Run (from the root of the library checkout, public API only):
//
//	cp demo_test.go graph/zz_c02_demo3_test.go
//	GOFLAGS=-mod=mod GOPROXY=off GOSUMDB=off GOTOOLCHAIN=local \
//	  go test -vet=off -count=1 -timeout 120s -run 'TestC02Demo3' -v ./graph/
//	rm graph/zz_c02_demo3_test.go
//
// TestC02Demo3Property checks the property itself by brute force (orbits = orbits of
// the class-preserving automorphism group, every generator is such an automorphism,
// the generators generate the whole group, reused storage/partition gives the same
// permutation, orbits and generators as a fresh call) on all graphs with at most 5
// vertices, with and without vertex classes, and on a few symmetric graphs. It passes
// BEFORE and AFTER the change.
//
// TestC02Demo3IncidentalOld asserts the OLD incidental behaviour: which vertex is the
// root (representative) of each orbit in the returned disjoint.Set, and the concrete
// generators / their number for the triangle, the 4-cycle and the Petersen graph. It
// PASSES on the clean tree and FAILS with the change.
package graph_test

import (
	"fmt"
	"reflect"
	"sort"
	"testing"

	"github.com/Tom-Johnston/mamba/disjoint"
	"github.com/Tom-Johnston/mamba/graph"
)

// c02d3Auts lists all class-preserving automorphisms of g by backtracking.
func c02d3Auts(g graph.Graph, cls []int) [][]int {
	n := g.N()
	var out [][]int
	img := make([]int, n)
	used := make([]bool, n)
	var rec func(k int)
	rec = func(k int) {
		if k == n {
			out = append(out, append([]int(nil), img...))
			return
		}
		for v := 0; v < n; v++ {
			if used[v] || cls[v] != cls[k] {
				continue
			}
			ok := true
			for j := 0; j < k && ok; j++ {
				ok = g.IsEdge(j, k) == g.IsEdge(img[j], v)
			}
			if !ok {
				continue
			}
			used[v] = true
			img[k] = v
			rec(k + 1)
			used[v] = false
		}
	}
	rec(0)
	return out
}

func c02d3PartKey(sets [][]int) string {
	s := make([]string, len(sets))
	for i := range sets {
		c := append([]int(nil), sets[i]...)
		sort.Ints(c)
		s[i] = fmt.Sprint(c)
	}
	sort.Strings(s)
	return fmt.Sprint(s)
}

// c02d3Check verifies the statement of C02 by brute force.
func c02d3Check(g graph.Graph, classes [][]int, orbits disjoint.Set, gens [][]int) error {
	n := g.N()
	cls := make([]int, n)
	for i, c := range classes {
		for _, v := range c {
			cls[v] = i
		}
	}
	auts := c02d3Auts(g, cls)
	autSet := map[string]bool{}
	uf := disjoint.New(n)
	for _, p := range auts {
		autSet[fmt.Sprint(p)] = true
		for i := range p {
			uf.Union(i, p[i])
		}
	}
	oc := append(disjoint.Set(nil), orbits...)
	if len(oc) != n || c02d3PartKey(oc.Sets()) != c02d3PartKey(uf.Sets()) {
		return fmt.Errorf("orbits %v, want %v", oc.Sets(), uf.Sets())
	}
	for _, gen := range gens {
		if !autSet[fmt.Sprint(gen)] {
			return fmt.Errorf("generator %v is not a (class-preserving) automorphism", gen)
		}
	}
	id := make([]int, n)
	for i := range id {
		id[i] = i
	}
	seen := map[string]bool{fmt.Sprint(id): true}
	queue := [][]int{id}
	for len(queue) > 0 {
		p := queue[0]
		queue = queue[1:]
		for _, gen := range gens {
			q := make([]int, n)
			for i := range q {
				q[i] = gen[p[i]]
			}
			if k := fmt.Sprint(q); !seen[k] {
				seen[k] = true
				queue = append(queue, q)
			}
		}
	}
	if len(seen) != len(auts) {
		return fmt.Errorf("generators %v generate a group of order %d, |Aut| = %d", gens, len(seen), len(auts))
	}
	return nil
}

const c02d3Petersen = "IsP@OkWHG"

// What the old tree returns for the Petersen graph: fmt.Sprint(orbits.Roots(), generators).
const c02d3PetersenOld = "[7] [[6 7 2 4 3 5 0 1 8 9] [7 6 5 3 4 2 1 0 8 9] [0 3 2 1 7 8 6 4 5 9] [0 1 3 2 4 5 8 9 6 7]]"

func TestC02Demo3Property(t *testing.T) {
	const N = 10
	st := graph.NewStorage(N, N*(N-1)/2)
	op := graph.NewOrderedPartition(N, N*(N-1)/2, nil)
	one := func(g *graph.DenseGraph, classes [][]int) {
		n := g.N()
		perm, orb, gens := graph.CanonicalIsomorphFull(g, classes)
		if err := c02d3Check(g, classes, orb, gens); err != nil {
			t.Errorf("fresh %s classes=%v: %v", graph.Graph6Encode(g), classes, err)
		}
		// Reused storage and partition: same permutation, orbits and generators as the fresh call.
		op.Reset(n, g.M(), classes)
		nb := make([][]int, n)
		for i := range nb {
			nb[i] = g.Neighbours(i)
		}
		perm2, orb2, gens2 := graph.CanonicalIsomorphAllocated(n, g.M(), nb, op, st, new(graph.CanonicalOptions))
		if !reflect.DeepEqual(perm, perm2) || c02d3PartKey(orb.Sets()) != c02d3PartKey(orb2.Sets()) || len(gens) != len(gens2) {
			t.Errorf("reused result differs from fresh result %s classes=%v", graph.Graph6Encode(g), classes)
			return
		}
		for i := range gens {
			if !reflect.DeepEqual(gens[i], gens2[i]) {
				t.Errorf("reused generators differ from fresh generators %s classes=%v", graph.Graph6Encode(g), classes)
			}
		}
	}
	// The big graph first so that the sizes go down and up again.
	pet, err := graph.Graph6Decode(c02d3Petersen)
	if err != nil {
		t.Fatal(err)
	}
	one(pet, nil)
	one(pet, [][]int{{0}, {9, 8, 7, 6, 5, 4, 3, 2, 1}})
	for n := 1; n <= 5; n++ {
		m := n * (n - 1) / 2
		edges := make([]byte, m)
		for x := 0; x < 1<<uint(m); x++ {
			for j := range edges {
				edges[j] = byte(x >> uint(j) & 1)
			}
			g := graph.NewDense(n, edges)
			one(g, nil)
			if n >= 2 {
				// two classes: {n-1, 0} and the rest (or a single vertex each for n = 2)
				if n == 2 {
					one(g, [][]int{{1}, {0}})
				} else {
					rest := []int{}
					for v := n - 2; v >= 1; v-- {
						rest = append(rest, v)
					}
					one(g, [][]int{rest, {n - 1, 0}})
				}
			}
		}
	}
	one(pet, nil)
}

func TestC02Demo3IncidentalOld(t *testing.T) {
	cases := []struct {
		name, g6  string
		wantRoots []int
		wantGens  [][]int
	}{
		{"triangle", "Bw", []int{1}, [][]int{{1, 0, 2}, {0, 2, 1}}},
		{"4-cycle", "CQ", []int{2}, [][]int{{2, 1, 0, 3}, {1, 0, 3, 2}}},
	}
	for _, c := range cases {
		g, err := graph.Graph6Decode(c.g6)
		if err != nil {
			t.Fatal(err)
		}
		_, orb, gens := graph.CanonicalIsomorphFull(g, nil)
		t.Logf("%s: raw orbits %v, roots %v, generators %v", c.name, []int(orb), orb.Roots(), gens)
		if !reflect.DeepEqual(orb.Roots(), c.wantRoots) {
			t.Errorf("%s: orbit roots %v, the old tree returned %v", c.name, orb.Roots(), c.wantRoots)
		}
		if !reflect.DeepEqual(gens, c.wantGens) {
			t.Errorf("%s: generators %v, the old tree returned %v", c.name, gens, c.wantGens)
		}
	}
	pet, _ := graph.Graph6Decode(c02d3Petersen)
	_, orb, gens := graph.CanonicalIsomorphFull(pet, nil)
	t.Logf("Petersen: raw orbits %v, roots %v, %d generators %v", []int(orb), orb.Roots(), len(gens), gens)
	if got := fmt.Sprint(orb.Roots(), gens); got != c02d3PetersenOld {
		t.Errorf("Petersen: roots and generators %v, the old tree returned %v", got, c02d3PetersenOld)
	}
}

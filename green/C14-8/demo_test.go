// Demonstration for C14, change 8 (GobEncode remembers the encoding of a dawg: the first call computes it, later calls on
// the same dawg only copy it; Builder.Add, Builder.Finish and GobDecode forget it before they change the dawg).
//
// Run (from the root of the library, after copying this file into the dawg directory):
//
//	cp demo_test.go <repo>/dawg/c14_demo_test.go
//	cd <repo> && GOFLAGS=-mod=mod GOPROXY=off GOSUMDB=off GOTOOLCHAIN=local go test -vet=off -count=1 -timeout 600s -run 'TestC14Demo' -v ./dawg
//	(also with -race)
//
// TestC14DemoProperty checks the property itself (round trip directly, into a used receiver and through encoding/gob,
// word count, ranks, Lookup on stored and absent words, pattern searches, stable re-encoding) for word sets with wide
// branching and counts on both sides of 127.  Passes before and after.
// TestC14DemoBytesUnchanged pins three small encodings; passes before and after.
// TestC14DemoHistories runs the histories in which a remembered encoding could go stale or be damaged: encode twice;
// overwrite, truncate and append to the first result and encode again; decode something else into a dawg that has
// been encoded; copy the struct value and decode into the copy; reuse a Builder after Initialise; add to a Builder
// after Finish (outside the documentation, accepted by the clean tree); encode one dawg from many goroutines.  In all
// of them every encoding must decode to an automaton that agrees with the dawg it was made from.  Passes before and
// after.
// TestC14DemoIncidentalRepeatedEncode pins the OLD cost of a repeated GobEncode of the same dawg: it does all the work
// again (9 to 49 allocations for the examples here, and a result with the generous capacity 8+9*nodes+9*edges).  With the change the
// repeated call makes exactly one allocation and returns a slice with cap == len, so this test passes on the clean
// tree and fails with the change.
package dawg_test

import (
	"bytes"
	"encoding/gob"
	"fmt"
	"reflect"
	"sort"
	"sync"
	"testing"

	"github.com/Tom-Johnston/mamba/dawg"
)

func c14Sorted(ws [][]byte) [][]byte {
	sort.Slice(ws, func(i, j int) bool { return bytes.Compare(ws[i], ws[j]) < 0 })
	out := ws[:0]
	for i, w := range ws {
		if i == 0 || !bytes.Equal(w, ws[i-1]) {
			out = append(out, w)
		}
	}
	return out
}

// c14WordSets returns word sets with wide branching (up to 256 links per node) and with word and node counts on both
// sides of 127.
func c14WordSets() map[string][][]byte {
	sets := map[string][][]byte{}
	sets["empty"] = nil
	sets["emptyword"] = [][]byte{{}}
	sets["ab"] = [][]byte{[]byte("a"), []byte("b")}
	for _, k := range []int{1, 127, 128, 129, 200, 256} {
		var ws [][]byte
		for c := 0; c < k; c++ {
			ws = append(ws, []byte{byte(c)})
		}
		sets[fmt.Sprintf("fan%d", k)] = c14Sorted(ws)
		// two levels, different second levels so that the nodes are not merged
		var ws2 [][]byte
		for c := 0; c < k; c++ {
			for e := 0; e <= c%5; e++ {
				ws2 = append(ws2, []byte{byte(c), byte(255 - e)})
			}
			if c%3 == 0 {
				ws2 = append(ws2, []byte{byte(c)})
			}
		}
		sets[fmt.Sprintf("two%d", k)] = c14Sorted(ws2)
	}
	// chains: many nodes, no sharing
	for _, n := range []int{126, 127, 128, 300} {
		w := make([]byte, n)
		for i := range w {
			w[i] = byte(i * 7)
		}
		sets[fmt.Sprintf("chain%d", n)] = [][]byte{w}
	}
	// pseudo random sets over small and full alphabets
	x := uint32(12345)
	rnd := func(n int) int {
		x = x*1664525 + 1013904223
		return int(x>>8) % n
	}
	for i := 0; i < 12; i++ {
		alpha := []int{2, 3, 256}[i%3]
		var ws [][]byte
		for j := 0; j < 40+rnd(300); j++ {
			w := make([]byte, rnd(6))
			for k := range w {
				w[k] = byte(rnd(alpha))
			}
			ws = append(ws, w)
		}
		sets[fmt.Sprintf("rand%d", i)] = c14Sorted(ws)
	}
	return sets
}

// c14Probes returns words to look up: every stored word and many words that are mostly not stored.
func c14Probes(ws [][]byte) [][]byte {
	var ps [][]byte
	ps = append(ps, []byte{}, []byte{0}, []byte{255}, []byte("zzzzzzzzzz"))
	for _, w := range ws {
		ps = append(ps, w)
		ps = append(ps, append(append([]byte{}, w...), 0))
		ps = append(ps, append(append([]byte{}, w...), 255))
		if len(w) > 0 {
			ps = append(ps, w[:len(w)-1])
			v := append([]byte{}, w...)
			v[len(v)-1]++
			ps = append(ps, v)
			v = append([]byte{}, w...)
			v[0] ^= 0x55
			ps = append(ps, v)
		}
	}
	return ps
}

func c14Stored(ws [][]byte, p []byte) bool {
	i := sort.Search(len(ws), func(i int) bool { return bytes.Compare(ws[i], p) >= 0 })
	return i < len(ws) && bytes.Equal(ws[i], p)
}

func c14Same(t *testing.T, name string, ws [][]byte, d, e *dawg.Dawg) {
	t.Helper()
	if d.NumberOfWords() != len(ws) || e.NumberOfWords() != len(ws) {
		t.Fatalf("%s: word counts %d %d, want %d", name, d.NumberOfWords(), e.NumberOfWords(), len(ws))
	}
	for i, w := range ws {
		ri, ok := e.Lookup(w)
		if !ok || ri != i {
			t.Fatalf("%s: decoded Lookup(%x) = %d,%v want %d,true", name, w, ri, ok, i)
		}
	}
	for _, p := range c14Probes(ws) {
		r1, ok1 := d.Lookup(p)
		r2, ok2 := e.Lookup(p)
		if r1 != r2 || ok1 != ok2 {
			t.Fatalf("%s: Lookup(%x): original %d,%v decoded %d,%v", name, p, r1, ok1, r2, ok2)
		}
		if ok1 != c14Stored(ws, p) {
			t.Fatalf("%s: Lookup(%x) ok = %v", name, p, ok1)
		}
	}
	for _, pat := range [][]byte{{}, {'?'}, {'?', '?'}, {0, '?'}, {'?', 255}, {'?', '?', '?'}, {1, '?', '?', '?'}} {
		s1, i1 := d.Search(dawg.NewPatternSearcher(pat, '?'))
		s2, i2 := e.Search(dawg.NewPatternSearcher(pat, '?'))
		if !reflect.DeepEqual(s1, s2) || !reflect.DeepEqual(i1, i2) {
			t.Fatalf("%s: pattern %x: search results differ", name, pat)
		}
		for k := range s1 {
			if !bytes.Equal(ws[i1[k]], s1[k]) {
				t.Fatalf("%s: pattern %x: result %x has index %d", name, pat, s1[k], i1[k])
			}
		}
	}
	s1, i1 := d.Search()
	s2, i2 := e.Search()
	if len(s1) != len(ws) || !reflect.DeepEqual(s1, s2) || !reflect.DeepEqual(i1, i2) {
		t.Fatalf("%s: listing all words differs", name)
	}
}

func TestC14DemoProperty(t *testing.T) {
	other, err := dawg.New([][]byte{[]byte("other"), []byte("others"), []byte("zz")})
	if err != nil {
		t.Fatal(err)
	}
	otherBytes, _ := other.GobEncode()
	for name, ws := range c14WordSets() {
		d, err := dawg.New(ws)
		if err != nil {
			t.Fatalf("%s: %v", name, err)
		}
		b, err := d.GobEncode()
		if err != nil {
			t.Fatalf("%s: %v", name, err)
		}
		// directly
		e := new(dawg.Dawg)
		if err := e.GobDecode(b); err != nil {
			t.Fatalf("%s: %v", name, err)
		}
		c14Same(t, name, ws, d, e)
		b2, _ := e.GobEncode()
		if !bytes.Equal(b, b2) {
			t.Fatalf("%s: encoding again gives other bytes", name)
		}
		// into a receiver that holds another dawg
		f := new(dawg.Dawg)
		if err := f.GobDecode(otherBytes); err != nil {
			t.Fatal(err)
		}
		if err := f.GobDecode(b); err != nil {
			t.Fatalf("%s: %v", name, err)
		}
		c14Same(t, name+"/reused receiver", ws, d, f)
		b3, _ := f.GobEncode()
		if !bytes.Equal(b, b3) {
			t.Fatalf("%s: encoding again (reused receiver) gives other bytes", name)
		}
		// through encoding/gob
		var buf bytes.Buffer
		if err := gob.NewEncoder(&buf).Encode(d); err != nil {
			t.Fatalf("%s: %v", name, err)
		}
		g := new(dawg.Dawg)
		if err := gob.NewDecoder(&buf).Decode(g); err != nil {
			t.Fatalf("%s: %v", name, err)
		}
		c14Same(t, name+"/gob", ws, d, g)
		b4, _ := g.GobEncode()
		if !bytes.Equal(b, b4) {
			t.Fatalf("%s: encoding again (gob) gives other bytes", name)
		}
	}
}

func TestC14DemoBytesUnchanged(t *testing.T) {
	for _, c := range []struct {
		ws   [][]byte
		want string
	}{
		{nil, "010000000000"},
		{[][]byte{{}}, "010000010100"},
		{[][]byte{[]byte("a"), []byte("b")}, "020001000200026101620101010100"},
	} {
		d, err := dawg.New(c.ws)
		if err != nil {
			t.Fatal(err)
		}
		b, _ := d.GobEncode()
		if got := fmt.Sprintf("%x", b); got != c.want {
			t.Errorf("GobEncode(%q) = %s, want %s", c.ws, got, c.want)
		}
	}
}

func c14Decode(t *testing.T, b []byte) *dawg.Dawg {
	t.Helper()
	e := new(dawg.Dawg)
	if err := e.GobDecode(b); err != nil {
		t.Fatal(err)
	}
	return e
}

func TestC14DemoHistories(t *testing.T) {
	sets := c14WordSets()
	ws := sets["two200"]
	vs := sets["rand5"]
	d, _ := dawg.New(ws)
	o, _ := dawg.New(vs)

	// encode twice, damage the first result in every way, encode again
	b1, _ := d.GobEncode()
	saved := append([]byte{}, b1...)
	b2, _ := d.GobEncode()
	if !bytes.Equal(b1, b2) {
		t.Fatal("two encodings of one dawg differ")
	}
	for i := range b1 {
		b1[i] = 0xff
	}
	if !bytes.Equal(b2, saved) {
		t.Fatal("overwriting one result changed another result")
	}
	b2 = append(b2[:3], 1, 2, 3)
	_ = append(b2[:cap(b2)], make([]byte, 100)...)
	b3, _ := d.GobEncode()
	if !bytes.Equal(b3, saved) {
		t.Fatal("encoding changed after the caller modified earlier results")
	}
	c14Same(t, "after damage", ws, d, c14Decode(t, b3))

	// decode something else into a dawg that has been encoded
	ob, _ := o.GobEncode()
	e := c14Decode(t, saved)
	eb, _ := e.GobEncode()
	if !bytes.Equal(eb, saved) {
		t.Fatal("re-encoding differs")
	}
	if err := e.GobDecode(ob); err != nil {
		t.Fatal(err)
	}
	c14Same(t, "receiver that had been encoded", vs, o, e)
	eb, _ = e.GobEncode()
	if !bytes.Equal(eb, ob) {
		t.Fatal("encoding of a receiver that had been encoded before is not that of its new contents")
	}
	// ... also after a failed decode the encoding describes what the receiver holds now
	f := c14Decode(t, saved)
	f.GobEncode()
	if err := f.GobDecode(ob[:len(ob)/2]); err == nil {
		t.Fatal("truncated input accepted")
	}
	fb, _ := f.GobEncode()
	fb2, _ := f.GobEncode()
	if !bytes.Equal(fb, fb2) {
		t.Fatal("unstable encoding after failed decode")
	}

	// struct value copies
	cp := *d
	cb, _ := cp.GobEncode()
	if !bytes.Equal(cb, saved) {
		t.Fatal("copy of the struct encodes differently")
	}
	if err := cp.GobDecode(ob); err != nil {
		t.Fatal(err)
	}
	cb, _ = cp.GobEncode()
	db, _ := d.GobEncode()
	if !bytes.Equal(cb, ob) || !bytes.Equal(db, saved) {
		t.Fatal("decoding into a copy of the struct: wrong encodings")
	}
	c14Same(t, "original after decoding into a copy", ws, d, c14Decode(t, db))
	c14Same(t, "copy after decoding into it", vs, o, &cp)

	// a Builder used for several dawgs (Initialise in between)
	var bld dawg.Builder
	var prev *dawg.Dawg
	var prevBytes []byte
	var prevWords [][]byte
	for _, name := range []string{"ab", "fan129", "rand3", "empty", "chain300", "rand7"} {
		bld.Initialise()
		for _, w := range sets[name] {
			if err := bld.Add(w); err != nil {
				t.Fatal(err)
			}
		}
		x, err := bld.Finish()
		if err != nil {
			t.Fatal(err)
		}
		xb, _ := x.GobEncode()
		c14Same(t, "builder/"+name, sets[name], x, c14Decode(t, xb))
		xb2, _ := x.GobEncode()
		if !bytes.Equal(xb, xb2) {
			t.Fatal("unstable")
		}
		if prev != nil {
			pb, _ := prev.GobEncode()
			if !bytes.Equal(pb, prevBytes) {
				t.Fatal("an earlier dawg of the builder changed its encoding")
			}
			c14Same(t, "builder/earlier", prevWords, prev, c14Decode(t, pb))
		}
		prev, prevBytes, prevWords = x, xb, sets[name]
	}

	// Add after Finish: not allowed by the documentation but accepted by the clean tree; it changes the dawg handed out
	bld.Initialise()
	bld.Add([]byte("ab"))
	bld.Add([]byte("bb"))
	y, _ := bld.Finish()
	yb1, _ := y.GobEncode()
	if err := bld.Add([]byte("bc")); err == nil {
		if y2, err := bld.Finish(); err == nil && y2 == y {
			yb2, _ := y.GobEncode()
			z := c14Decode(t, yb2)
			zb, _ := z.GobEncode()
			if z.NumberOfWords() != y.NumberOfWords() || !bytes.Equal(zb, yb2) || bytes.Equal(yb1, yb2) {
				t.Fatal("encoding does not follow a dawg modified through its builder")
			}
			s1, i1 := y.Search()
			s2, i2 := z.Search()
			if !reflect.DeepEqual(s1, s2) || !reflect.DeepEqual(i1, i2) {
				t.Fatal("decoded dawg differs from a dawg modified through its builder")
			}
		}
	}

	// many goroutines encode one dawg (fresh, so that the first calls race with each other)
	g, _ := dawg.New(ws)
	var wg sync.WaitGroup
	res := make([][]byte, 16)
	for i := range res {
		wg.Add(1)
		go func(i int) {
			defer wg.Done()
			for k := 0; k < 5; k++ {
				res[i], _ = g.GobEncode()
				res[i][0] ^= 0xff
				res[i][0] ^= 0xff
			}
		}(i)
	}
	wg.Wait()
	for i := range res {
		if !bytes.Equal(res[i], saved) {
			t.Fatal("concurrent encodings differ")
		}
	}
}

// TestC14DemoIncidentalRepeatedEncode pins the OLD cost of encoding the same dawg again.
func TestC14DemoIncidentalRepeatedEncode(t *testing.T) {
	for _, name := range []string{"ab", "two200", "chain300", "rand5"} {
		ws := c14WordSets()[name]
		d, err := dawg.New(ws)
		if err != nil {
			t.Fatal(err)
		}
		first, _ := d.GobEncode()
		var again []byte
		allocs := testing.AllocsPerRun(20, func() { again, _ = d.GobEncode() })
		t.Logf("%s: len %d; first call cap %d; repeated call cap %d, %.0f allocations", name, len(first), cap(first), cap(again), allocs)
		if !bytes.Equal(first, again) {
			t.Fatalf("%s: repeated encoding differs", name)
		}
		if allocs < 5 {
			t.Errorf("%s: repeated GobEncode made %.0f allocations; the clean tree does all the work again (5 or more)", name, allocs)
		}
		if cap(again) <= len(again) {
			t.Errorf("%s: repeated GobEncode returned cap %d for len %d; the clean tree returns spare capacity", name, cap(again), len(again))
		}
	}
}

package planarity

import (
	"fmt"

	"verif/internal/gen"
	"verif/internal/oracle/brute"
	"verif/internal/oracle/rg"
	"verif/internal/selfcheck"
)

func init() {
	selfcheck.Add("planarity: rotation checker on K4, K5, K3,3", SelfCheckRotation)
	selfcheck.Add("planarity: Kuratowski checker", SelfCheckKuratowski)
	selfcheck.Add("planarity: reference vs A005470, n<=7", func() error { return SelfCheckReference(7) })
}

func complete(n int) *rg.G {
	g := rg.New(n)
	for i := 0; i < n; i++ {
		for j := 0; j < i; j++ {
			g.Add(i, j)
		}
	}
	return g
}

func k33() *rg.G {
	g := rg.New(6)
	for i := 0; i < 3; i++ {
		for j := 3; j < 6; j++ {
			g.Add(i, j)
		}
	}
	return g
}

// cyclic orders of a neighbour list with the first element fixed
func cyclicOrders(nb []int) [][]int {
	if len(nb) <= 2 {
		return [][]int{append([]int(nil), nb...)}
	}
	var out [][]int
	rest := append([]int(nil), nb[1:]...)
	var rec func(k int)
	rec = func(k int) {
		if k == len(rest) {
			out = append(out, append([]int{nb[0]}, rest...))
			return
		}
		for i := k; i < len(rest); i++ {
			rest[k], rest[i] = rest[i], rest[k]
			rec(k + 1)
			rest[k], rest[i] = rest[i], rest[k]
		}
	}
	rec(0)
	return out
}

// countPlanarRotations counts the rotation systems of g accepted by CheckRotation.
func countPlanarRotations(g *rg.G) (accepted, total int) {
	n := g.N
	choices := make([][][]int, n)
	for v := 0; v < n; v++ {
		choices[v] = cyclicOrders(g.Nbrs(v))
	}
	rot := make([][]int, n)
	var rec func(v int)
	rec = func(v int) {
		if v == n {
			total++
			if CheckRotation(g, rot) == nil {
				accepted++
			}
			return
		}
		for _, c := range choices[v] {
			rot[v] = c
			rec(v + 1)
		}
	}
	rec(0)
	return
}

// SelfCheckRotation: K4 has 16 rotation systems of which exactly 2 are planar
// (the embedding and its mirror image); none of the 7776 rotation systems of
// K5 and none of the 64 of K3,3 is planar; K5 minus an edge has planar ones.
func SelfCheckRotation() error {
	if a, t := countPlanarRotations(complete(4)); a != 2 || t != 16 {
		return fmt.Errorf("K4: %d of %d rotation systems accepted, want 2 of 16", a, t)
	}
	if a, t := countPlanarRotations(complete(5)); a != 0 || t != 7776 {
		return fmt.Errorf("K5: %d of %d rotation systems accepted, want 0 of 7776", a, t)
	}
	if a, t := countPlanarRotations(k33()); a != 0 || t != 64 {
		return fmt.Errorf("K3,3: %d of %d rotation systems accepted, want 0 of 64", a, t)
	}
	g := complete(5)
	g.Del(0, 1)
	if a, _ := countPlanarRotations(g); a == 0 {
		return fmt.Errorf("K5 - e: no rotation system accepted")
	}
	// disconnected: two triangles and an isolated vertex
	h := rg.New(7)
	h.Add(0, 1)
	h.Add(1, 2)
	h.Add(0, 2)
	h.Add(3, 4)
	h.Add(4, 5)
	h.Add(3, 5)
	if err := CheckRotation(h, [][]int{{1, 2}, {0, 2}, {0, 1}, {4, 5}, {3, 5}, {3, 4}, nil}); err != nil {
		return fmt.Errorf("2 K3 + K1 rejected: %v", err)
	}
	// wrong neighbour lists are rejected
	if CheckRotation(h, [][]int{{1, 2}, {0, 2}, {0, 1}, {4, 5}, {3, 5}, {3}, nil}) == nil {
		return fmt.Errorf("incomplete rotation accepted")
	}
	if CheckRotation(h, [][]int{{1, 2}, {0, 2}, {0, 1}, {4, 5}, {3, 5}, {3, 3}, nil}) == nil {
		return fmt.Errorf("rotation with a repeated neighbour accepted")
	}
	return nil
}

func subdivided(g *rg.G, times int) (*rg.G, [][2]int) {
	es := g.Edges()
	n := g.N
	var out [][2]int
	for _, e := range es {
		prev := e[0]
		for t := 0; t < times; t++ {
			out = append(out, [2]int{prev, n})
			prev = n
			n++
		}
		out = append(out, [2]int{prev, e[1]})
	}
	h := rg.New(n)
	for _, e := range out {
		h.Add(e[0], e[1])
	}
	return h, out
}

// SelfCheckKuratowski: accepts K5, K3,3 and their subdivisions (also inside a
// bigger graph); rejects near misses.
func SelfCheckKuratowski() error {
	for times := 0; times <= 3; times++ {
		for _, base := range []*rg.G{complete(5), k33()} {
			h, es := subdivided(base, times)
			want := "K5"
			if base.N == 6 {
				want = "K3,3"
			}
			if kind, err := CheckKuratowski(h, es); err != nil || kind != want {
				return fmt.Errorf("subdivision (x%d) of %s: got %q, %v", times, want, kind, err)
			}
			if _, err := CheckKuratowski(h, es[1:]); err == nil {
				return fmt.Errorf("subdivision of %s minus an edge accepted", want)
			}
			if _, err := CheckKuratowski(h, append(append([][2]int{}, es...), es[0])); err == nil {
				return fmt.Errorf("repeated edge accepted")
			}
		}
	}
	// K6 contains K5 on any 5 vertices; the whole of K6 is no subdivision
	k6 := complete(6)
	if _, err := CheckKuratowski(k6, k6.Edges()); err == nil {
		return fmt.Errorf("K6 accepted as a subdivision")
	}
	if kind, err := CheckKuratowski(k6, complete(5).Edges()); err != nil || kind != "K5" {
		return fmt.Errorf("K5 inside K6 rejected: %v", err)
	}
	// edges that are not in the graph
	if _, err := CheckKuratowski(k33(), complete(5).Edges()); err == nil {
		return fmt.Errorf("edges outside the graph accepted")
	}
	// K4 with two subdivided edges: 4 branch vertices
	k4 := complete(4)
	if _, err := CheckKuratowski(k4, k4.Edges()); err == nil {
		return fmt.Errorf("K4 accepted")
	}
	// Petersen as a whole (ten vertices of degree 3)
	pet := gen.GenPetersen(5, 2)
	if _, err := CheckKuratowski(pet, pet.Edges()); err == nil {
		return fmt.Errorf("Petersen graph accepted as a subdivision")
	}
	// K3,3 plus a disjoint cycle
	h := rg.New(9)
	for i := 0; i < 3; i++ {
		for j := 3; j < 6; j++ {
			h.Add(i, j)
		}
	}
	h.Add(6, 7)
	h.Add(7, 8)
	h.Add(6, 8)
	if _, err := CheckKuratowski(h, h.Edges()); err == nil {
		return fmt.Errorf("K3,3 plus a disjoint triangle accepted")
	}
	// the triangular prism plus nothing: 6 vertices of degree 3 but planar
	pr := rg.New(6)
	for i := 0; i < 3; i++ {
		pr.Add(i, (i+1)%3)
		pr.Add(3+i, 3+(i+1)%3)
		pr.Add(i, 3+i)
	}
	if _, err := CheckKuratowski(pr, pr.Edges()); err == nil {
		return fmt.Errorf("prism accepted as K3,3")
	}
	// 5 vertices of degree 4 that are not K5: K5 where the path 0-1 is replaced by a second path 2-3 is impossible to build
	// simply; use the octahedron minus a vertex + ... : circulant C8(1,2) has degree 4 everywhere (8 branch vertices)
	c := gen.Circulant(8, 1, 2)
	if _, err := CheckKuratowski(c, c.Edges()); err == nil {
		return fmt.Errorf("C8(1,2) accepted")
	}
	return nil
}

// SelfCheckReference: the reference with verified certificates reproduces the
// number of planar graphs (A005470) on the independent class lists up to
// maxN <= 8 and agrees with the bit-mask reference of package brute.
func SelfCheckReference(maxN int) error {
	want := []int{1, 1, 2, 4, 11, 33, 142, 822, 6966}
	for n := 0; n <= maxN; n++ {
		cnt := 0
		for _, g := range gen.Classes(n) {
			c := Reference(g)
			if _, err := c.Verify(g); err != nil {
				return fmt.Errorf("n=%d %s: certificate of the reference rejected: %v", n, g.G6(), err)
			}
			bp, bok := brute.RefPlanar(brute.FromRG(g, g.N))
			if !bok || bp != c.Planar {
				return fmt.Errorf("n=%d %s: reference says planar=%v, brute reference planar=%v certified=%v", n, g.G6(), c.Planar, bp, bok)
			}
			if c.Planar {
				cnt++
			}
		}
		if cnt != want[n] {
			return fmt.Errorf("n=%d: %d planar classes, A005470 says %d", n, cnt, want[n])
		}
	}
	return nil
}

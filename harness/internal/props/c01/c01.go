// Package c01 monitors graph.CanonicalIsomorph: permutation validity,
// invariance of the canonical graph under relabelling and representation, and
// the count of distinct canonical graphs over complete labelled sweeps against
// the Polya count (DESIGN.md section 4, C01).
package c01

import (
	"encoding/json"
	"fmt"
	"strings"
	"math/big"
	"sort"

	"github.com/Tom-Johnston/mamba/graph"

	"verif/internal/engine"
	"verif/internal/gen"
	"verif/internal/oracle/iso"
	"verif/internal/oracle/polya"
	"verif/internal/oracle/rg"
)

func init() {
	engine.Register(&engine.Property{
		ID:    "C01",
		Level: "exploration",
		Rule: "p = CanonicalIsomorph(rep(pi(g))) for g over (a) ALL labelled graphs n<=7 (n<=8 thorough), (b) every isomorphism class n<=8 (harness-generated) x seeded relabellings pi x {dense, sparse}, (c) structured families up to n=64 x relabellings, (d) seeded random / regular / irregular large-cell graphs, (e) thorough: classes n=9 and 1/16 of n=10. " +
			"Judged: p is a permutation; the canonical graph computed by the harness from its own matrix and p is identical for all relabellings and both representations; over a complete labelled sweep the number of distinct canonical graphs equals the Polya count. " +
			"non-trivial = graph with |Aut| > 1 (harness oracle, or labelled orbit smaller than n! in the sweeps) and n >= 4; distinct = (class, relabelling) pairs",
		Assumptions: []string{
			"canonical graph = relabelling of g by the returned permutation (vertex i of the canonical graph is p[i]), as documented for InducedSubgraph(CanonicalIsomorph(g)); computed harness-side",
			"class lists n<=8 come from the harness generator checked against the Polya count; for n>=9 from search.All as an input source (count checked)",
			"Polya counts cross-checked with OEIS A000088 at start-up",
		},
		Run:            run,
		Finish:         finish,
		MinEvaluations: map[string]int{"quick": 3000000, "thorough": 250000000},
		MinNontrivial:  map[string]int{"quick": 500000, "thorough": 10000000},
		RequiredObs:    []string{"aut>1", "rep:dense", "rep:sparse", "rep:variant(edge bytes 1..255 / spare capacity)", "library_path_checked", "large_cell_graphs(n>=21)", "big_cell_cases", "perturbed_symmetric_graphs_checked", "circulants_with_one_edge_toggled", "cycle_unions_checked(n>=21)", "earlier_result_rechecked_after_next_call"},
	})
}

// held is the most recent permutation returned by CanonicalIsomorph (the very slice, and a snapshot of it).
var held struct {
	slice, snap []int
	vkey        string
}

func isPerm(p []int, n int) bool {
	if len(p) != n {
		return false
	}
	seen := make([]bool, n)
	for _, x := range p {
		if x < 0 || x >= n || seen[x] {
			return false
		}
		seen[x] = true
	}
	return true
}

// canonOf runs CanonicalIsomorph on one representation of h and returns the
// canonical graph computed by the harness.
func canonOf(c *engine.Ctx, key string, h *rg.G, sparse bool, witness func() interface{}, vkey string) (*rg.G, []int, bool) {
	var lg graph.Graph
	// every fourth graph (a function of the graph, so that a case replays on its own) is handed over in a
	// representation variant: edge bytes 1..255 and dirty spare capacity (dense), spare capacity (sparse)
	variant := 0
	if h.N > 0 {
		if hv := h.M()*7 + h.N*3 + h.Deg(0); hv%4 == 1 {
			variant = 1 + hv%5
		}
	}
	if sparse {
		lg = h.SparseVariant(variant)
		c.Obs("rep:sparse", 1)
	} else {
		lg = h.DenseVariant(variant)
		c.Obs("rep:dense", 1)
	}
	if variant > 0 {
		c.Obs("rep:variant(edge bytes 1..255 / spare capacity)", 1)
	}
	var p []int
	// canonical labelling is exponential in the worst case and WHICH symmetric graphs are slow depends on incidental
	// choices (cell order, target cell): on graphs that are not small a budget overrun is counted, not judged
	call := c.Call
	if h.N >= 13 {
		call = c.CallSlowOK
	}
	if pi := call(key, func() { p = graph.CanonicalIsomorph(lg) }); pi != nil {
		c.Violation("canon|panic@"+engine.SiteNoLine(pi.Site)+"|"+vkey, witness(), pi.String(), "a permutation")
		return nil, nil, false
	}
	c.Eval(1)
	// a result handed out earlier must not change when the function is called again
	if held.slice != nil {
		c.Obs("earlier_result_rechecked_after_next_call", 1)
		same := len(held.slice) == len(held.snap)
		for i := 0; same && i < len(held.snap); i++ {
			same = held.slice[i] == held.snap[i]
		}
		if !same {
			c.Violation("canon|earlier-result-changed-by-a-later-call|"+held.vkey, map[string]interface{}{"first_graph": held.vkey, "then": vkey, "returned_then": held.snap, "reads_now": held.slice}, fmt.Sprintf("the permutation returned for %s read %v when it was returned and reads %v after CanonicalIsomorph was called on %s", held.vkey, held.snap, held.slice, vkey), "a returned permutation stays as returned")
			held.slice = nil
			return nil, nil, false
		}
	}
	held.slice, held.snap, held.vkey = p, append([]int(nil), p...), vkey
	if !isPerm(p, h.N) {
		c.Violation("canon|not-a-permutation|"+vkey, witness(), fmt.Sprint(p), fmt.Sprintf("a permutation of 0..%d", h.N-1))
		return nil, nil, false
	}
	return h.Induced(p), p, true
}

// checkClass checks invariance of the canonical form of g under k relabellings and both representations.
func checkClass(c *engine.Ctx, label string, name string, g *rg.G, k int, rnd func(i int) *engine.Rng, aut *big.Int) bool {
	n := g.N
	vkey := name
	var ref *rg.G
	nontrivial := n >= 4 && aut != nil && aut.Cmp(big.NewInt(1)) > 0
	if nontrivial {
		c.Obs("aut>1", 1)
	}
	for i := 0; i < k; i++ {
		var pi []int
		if i == 0 {
			pi = make([]int, n)
			for j := range pi {
				pi[j] = j
			}
		} else {
			pi = rnd(i).Perm(n)
		}
		h := g.Induced(pi)
		for rep := 0; rep < 2; rep++ {
			if rep == 1 && i%2 == 1 && k > 8 {
				continue // sparse on every other relabelling
			}
			wit := func() interface{} {
				return map[string]interface{}{"workload": label, "graph": name, "g": g.String(), "relabelling": pi, "relabelled_g6": h.G6(), "sparse": rep == 1}
			}
			cg, p, ok := canonOf(c, "canon|"+name+"|relabel", h, rep == 1, wit, vkey)
			if !ok {
				return false
			}
			if ref == nil {
				ref = cg
			} else if !cg.Equal(ref) {
				c.Violation("canon|not-invariant|"+vkey, wit(), "canonical graph "+cg.G6()+" (perm "+fmt.Sprint(p)+")", "canonical graph "+ref.G6()+" as for the first labelling")
				return false
			}
			// library path: InducedSubgraph(p) + Equal / Graph6Encode
			if i%8 == 0 && n <= 62 {
				c.Obs("library_path_checked", 1)
				var msg string
				var eq bool
				var g6 string
				if pinfo := c.Call("canon|"+name+"|library-path", func() {
					var lib graph.Graph
					if rep == 1 {
						lib = h.Sparse().InducedSubgraph(p)
					} else {
						lib = h.Dense().InducedSubgraph(p)
					}
					msg = rg.Conforms(lib, cg)
					eq = graph.Equal(lib, ref.Dense())
					g6 = graph.Graph6Encode(lib)
				}); pinfo != nil {
					c.Violation("canon|library-path|panic@"+engine.SiteNoLine(pinfo.Site)+"|"+vkey, wit(), pinfo.String(), "InducedSubgraph/Equal/Graph6Encode return")
					return false
				}
				if msg != "" || !eq || g6 != ref.G6() {
					c.Violation("canon|library-path-disagrees|"+vkey, wit(), fmt.Sprintf("InducedSubgraph(p): %s; Equal=%v; graph6=%q", msg, eq, g6), "the canonical graph "+ref.G6())
					return false
				}
			}
			if nontrivial {
				c.NT(name, i, rep)
			}
		}
	}
	return true
}

type keyCount struct {
	N     int    `json:"n"`
	Key   uint64 `json:"k"`
	Count int64  `json:"c"`
}

// labelledSweep runs CanonicalIsomorph on every labelled graph with edge mask = from (mod step).
func labelledSweep(c *engine.Ctx, n int, from, step uint64) {
	e := n * (n - 1) / 2
	type pr struct{ i, j int }
	var pairs []pr
	idx := make([][]int, n)
	for j := 0; j < n; j++ {
		idx[j] = make([]int, n)
	}
	for j := 0; j < n; j++ {
		for i := 0; i < j; i++ {
			idx[i][j] = len(pairs)
			idx[j][i] = len(pairs)
			pairs = append(pairs, pr{i, j})
		}
	}
	d := &graph.DenseGraph{NumberOfVertices: n, DegreeSequence: make([]int, n), Edges: make([]byte, e)}
	counts := map[uint64]int64{}
	total := uint64(1) << uint(e)
	key := fmt.Sprintf("canon|labelled n=%d mask", n)
	seen := make([]bool, n)
	var p []int
	f := func() { p = graph.CanonicalIsomorph(d) }
	evals := 0
	for mask := from; mask < total; mask += step {
		m := 0
		for v := range d.DegreeSequence {
			d.DegreeSequence[v] = 0
		}
		for k := 0; k < e; k++ {
			if mask>>uint(k)&1 == 1 {
				d.Edges[k] = 1
				d.DegreeSequence[pairs[k].i]++
				d.DegreeSequence[pairs[k].j]++
				m++
			} else {
				d.Edges[k] = 0
			}
		}
		d.NumberOfEdges = m
		if pi := c.CallN(key, int64(mask), f); pi != nil {
			c.Violation(fmt.Sprintf("canon|panic@%s|labelled n=%d", engine.SiteNoLine(pi.Site), n), map[string]interface{}{"n": n, "edge_mask": mask}, pi.String(), "a permutation")
			return
		}
		evals++
		ok := len(p) == n
		if ok {
			for v := range seen {
				seen[v] = false
			}
			for _, x := range p {
				if x < 0 || x >= n || seen[x] {
					ok = false
					break
				}
				seen[x] = true
			}
		}
		if !ok {
			c.Violation(fmt.Sprintf("canon|not-a-permutation|labelled n=%d", n), map[string]interface{}{"n": n, "edge_mask": mask}, fmt.Sprint(p), "a permutation")
			return
		}
		// canonical mask: bit k of the result = edge between p[i], p[j] for pair k=(i,j)
		var cm uint64
		for k := 0; k < e; k++ {
			if n > 1 && mask>>uint(idx[p[pairs[k].i]][p[pairs[k].j]])&1 == 1 {
				cm |= 1 << uint(k)
			}
		}
		counts[cm]++
	}
	c.Eval(evals)
	c.Obs(fmt.Sprintf("labelled_graphs_n=%d", n), evals)
	for k, v := range counts {
		c.Emit("canon", keyCount{N: n, Key: k, Count: v})
	}
}

func maskToG(n int, mask uint64) *rg.G {
	g := rg.New(n)
	k := 0
	for j := 0; j < n; j++ {
		for i := 0; i < j; i++ {
			if mask>>uint(k)&1 == 1 {
				g.Add(i, j)
			}
			k++
		}
	}
	return g
}

func run(c *engine.Ctx) {
	// (a) complete labelled sweeps
	maxLab := c.Pick(7, 8)
	for n := 0; n <= maxLab; n++ {
		shards := 1
		switch {
		case n == 6:
			shards = 4
		case n == 7:
			shards = 64
		case n == 8:
			shards = 2048
		}
		for s := 0; s < shards; s++ {
			n, s, shards := n, s, shards
			c.Unit(fmt.Sprintf("labelled/n=%d/%d", n, s), func() {
				labelledSweep(c, n, uint64(s), uint64(shards))
				if s == 0 {
					c.Obs(fmt.Sprintf("exhaustive:all 2^%d labelled graphs on %d vertices (dense)", n*(n-1)/2, n), 1)
					c.Sample("labelled-sweep", map[string]interface{}{"n": n, "shards": shards, "graphs": uint64(1) << uint(n*(n-1)/2)})
				}
			})
		}
	}

	// (b) all classes n <= 8 x relabellings x representations
	K := c.Pick(64, 512)
	for n := 0; n <= 8; n++ {
		block := 100
		nclasses := int(polya.Graphs(n).Int64())
		for b := 0; b*block < nclasses; b++ {
			n, b := n, b
			c.Unit(fmt.Sprintf("classes/n=%d/%d", n, b), func() {
				cls := gen.Classes(n)
				for ci := b * block; ci < (b+1)*block && ci < len(cls) && !c.Stopped(); ci++ {
					g := cls[ci]
					k := K
					if n <= 3 {
						k = 8
					}
					var aut *big.Int
					if n >= 4 {
						aut = iso.Automorphisms(g, nil).Order
					}
					name := g.G6()
					ci := ci
					checkClass(c, "classes", name, g, k, func(i int) *engine.Rng { return c.Rand(fmt.Sprintf("c01-classes-%d", n), ci*4096+i) }, aut)
					if ci < 2 && n == 8 {
						c.Sample("classes", map[string]interface{}{"g6": name, "relabellings": k, "aut": aut})
					}
				}
				if b == 0 {
					c.Obs(fmt.Sprintf("exhaustive:all %d isomorphism classes on %d vertices x %d relabellings", nclasses, n, K), 1)
				}
			})
		}
	}

	// (c) structured families
	fams := gen.Families()
	KF := c.Pick(48, 512)
	for fi := range fams {
		fi := fi
		c.Unit("family/"+fams[fi].Name, func() {
			f := fams[fi]
			k := KF
			if f.G.N > 40 {
				k = KF / 4
			}
			aut := f.Aut
			if aut == nil {
				aut = iso.Automorphisms(f.G, nil).Order
			}
			checkClass(c, "families", f.Name, f.G, k, func(i int) *engine.Rng { return c.Rand("c01-family-"+f.Name, i) }, aut)
			c.Obs("families_checked", 1)
			if f.G.N >= 21 {
				c.Obs("large_cell_graphs(n>=21)", 1)
			}
			if fi < 2 {
				c.Sample("families", map[string]interface{}{"name": f.Name, "n": f.G.N, "m": f.G.M(), "aut": aut.String(), "relabellings": k})
			}
		})
	}

	// (c2) locally perturbed symmetric graphs: a structured family member with one edge added / one edge removed /
	// a pendant vertex attached / two such edits.  The refinement then proceeds in waves (the distance partition from the
	// perturbation): cells are shattered again while they are still queued, which graphs that are either symmetric or
	// random never do.
	KP := c.Pick(24, 160)
	for fi := range fams {
		fi := fi
		if fams[fi].G.N < 8 || fams[fi].G.N > 64 {
			continue
		}
		c.Unit("perturbed/"+fams[fi].Name, func() {
			f := fams[fi]
			for pk := 0; pk < 4; pk++ {
				r := c.Rand("c01-perturb-"+f.Name, pk)
				g := f.G.Copy()
				name := f.Name
				edits := 1
				if pk == 3 {
					edits = 2
				}
				for e := 0; e < edits; e++ {
					kind := (pk + e) % 3
					switch kind {
					case 0, 1: // add a non-edge / remove an edge (first pair found from a random start)
						want := kind == 1
						a0, b0 := r.Intn(g.N), r.Intn(g.N)
						done := false
						for da := 0; da < g.N && !done; da++ {
							for db := 0; db < g.N && !done; db++ {
								a, b := (a0+da)%g.N, (b0+db)%g.N
								if a != b && g.Has(a, b) == want {
									if want {
										g.Del(a, b)
										name += fmt.Sprintf("-(%d,%d)", a, b)
									} else {
										g.Add(a, b)
										name += fmt.Sprintf("+(%d,%d)", a, b)
									}
									done = true
								}
							}
						}
					case 2:
						v := r.Intn(g.N)
						g = g.AddVertex([]int{v})
						name += fmt.Sprintf("+pendant(%d)", v)
					}
				}
				k := KP
				if g.N > 40 {
					k = KP / 2
				}
				var aut *big.Int
				if g.N <= 40 {
					aut = iso.Automorphisms(g, nil).Order
				}
				if !checkClass(c, "perturbed", name, g, k, func(i int) *engine.Rng { return c.Rand("c01-perturb-perm-"+f.Name, pk*1000+i) }, aut) {
					return
				}
				c.Obs("perturbed_symmetric_graphs_checked", 1)
			}
		})
	}

	// (c3) ALL circulant graphs C_n(S) for n = 10..14 (thorough: ..18) with ONE edge {0,d} toggled, for every d: regular
	// or almost regular graphs whose refinement needs several rounds and whose search tree has depth >= 2 while the
	// symmetry left inside the cells is small -- the classical hard inputs of partition refinement
	maxCirc := c.Pick(14, 18)
	KC := c.Pick(32, 64)
	for n := 10; n <= maxCirc; n++ {
		n := n
		half := n / 2
		nsets := 1 << uint(half)
		chunk := 16
		for lo := 1; lo < nsets; lo += chunk {
			lo := lo
			c.Unit(fmt.Sprintf("circulant-toggle/n=%d/%d", n, lo), func() {
				for mask := lo; mask < lo+chunk && mask < nsets && !c.Stopped(); mask++ {
					base := rg.New(n)
					for v := 0; v < n; v++ {
						for d := 1; d <= half; d++ {
							if mask>>uint(d-1)&1 == 1 {
								base.Add(v, (v+d)%n)
							}
						}
					}
					for d := 1; d <= half; d++ {
						g := base.Copy()
						if g.Has(0, d) {
							g.Del(0, d)
						} else {
							g.Add(0, d)
						}
						name := fmt.Sprintf("circ%d(mask=%d)^(0,%d)", n, mask, d)
						if !checkClass(c, "circulant-toggle", name, g, KC, func(i int) *engine.Rng { return c.Rand("c01-circ", (n*100000+mask*32+d)*128+i) }, nil) {
							return
						}
						c.Obs("circulants_with_one_edge_toggled", 1)
					}
				}
			})
		}
	}

	// (c4) disjoint unions of 4..6 short cycles, every multiset of lengths from {3,4,5,6} (thorough: {3..8}, up to 7
	// components), hundreds of relabellings each: many isomorphic components give a search tree full of equivalent
	// leaves in which the best leaf changes again and again while the children of one node are being tried, so that
	// every automorphism-pruning rule is exercised across such changes (a defect of exactly this kind showed up only
	// from 21 vertices on and for under 1 % of the relabellings)
	maxLen, maxComp := c.Pick(6, 8), c.Pick(6, 7)
	KU := c.Pick(400, 1000)
	var multisets [][]int
	var recU func(cur []int, from int)
	recU = func(cur []int, from int) {
		if len(cur) >= 4 {
			multisets = append(multisets, append([]int{}, cur...))
		}
		if len(cur) == maxComp {
			return
		}
		for l := from; l <= maxLen; l++ {
			recU(append(cur, l), l)
		}
	}
	recU(nil, 3)
	for mi := range multisets {
		mi := mi
		if c.Thorough() && len(multisets[mi]) == 7 && mi%4 != int(c.Seed())%4 {
			continue // thorough: a quarter of the 7-component unions, rotating with the seed
		}
		c.Unit(fmt.Sprintf("cycle-unions/%v", multisets[mi]), func() {
			ls := multisets[mi]
			g := rg.New(0)
			name := ""
			for _, l := range ls {
				g = rg.Union(g, gen.Cycle(l))
				name += fmt.Sprintf("C%d+", l)
			}
			name = strings.TrimSuffix(name, "+")
			checkClass(c, "cycle-unions", name, g, KU, func(i int) *engine.Rng { return c.Rand("c01-cycle-unions-"+name, i) }, nil)
			c.Obs("cycle_unions_checked", 1)
			if g.N >= 21 {
				c.Obs("cycle_unions_checked(n>=21)", 1)
			}
		})
	}

	// (c5) the same for multisets of other small components (repeated and non-isomorphic ones mixed) and their complements
	// (joins): seeded multisets of 3..6 components from a pool of small vertex-transitive and nearly symmetric graphs
	pool := []struct {
		name string
		g    *rg.G
	}{{"K1", rg.New(1)}, {"K2", gen.Complete(2)}, {"P3", gen.PathG(3)}, {"K3", gen.Complete(3)}, {"C4", gen.Cycle(4)}, {"K4", gen.Complete(4)}, {"P4", gen.PathG(4)},
		{"C5", gen.Cycle(5)}, {"K1,3", gen.CompleteMultipartite(1, 3)}, {"K2,3", gen.CompleteMultipartite(2, 3)}, {"K3,3", gen.CompleteMultipartite(3, 3)}, {"C6", gen.Cycle(6)},
		{"prism", gen.Circulant(6, 1, 3)}, {"Q3", gen.Hypercube(3)}, {"C7", gen.Cycle(7)}, {"petersen", gen.Kneser(5, 2)}}
	NMS := c.Pick(64, 400)
	KM := c.Pick(300, 600)
	for mi := 0; mi < NMS; mi++ {
		mi := mi
		c.Unit(fmt.Sprintf("component-multisets/%d", mi), func() {
			r := c.Rand("c01-multisets", mi)
			// 2-3 distinct component types, each repeated 1..3 times, at most 6 components and 40 vertices
			types := r.Perm(len(pool))[:2+r.Intn(2)]
			g := rg.New(0)
			name := ""
			comps := 0
			for _, t := range types {
				for rep := 1 + r.Intn(3); rep > 0 && comps < 6 && g.N+pool[t].g.N <= 40; rep-- {
					g = rg.Union(g, pool[t].g)
					name += pool[t].name + "+"
					comps++
				}
			}
			name = strings.TrimSuffix(name, "+")
			if mi%3 == 2 {
				g = g.Complement()
				name = "co(" + name + ")"
			}
			checkClass(c, "component-multisets", name, g, KM, func(i int) *engine.Rng { return c.Rand("c01-multisets-perm", mi*2048+i) }, nil)
			c.Obs("component_multisets_checked", 1)
		})
	}

	// (d) seeded graphs: random small, regular, trees, unions, irregular graphs with big cells (n >= 21)
	NS := c.Pick(1500, 15000)
	per := 25
	for u := 0; u*per < NS; u++ {
		u := u
		c.Unit(fmt.Sprintf("seeded/%d", u), func() {
			for i := u * per; i < (u+1)*per && i < NS && !c.Stopped(); i++ {
				r := c.Rand("c01-seeded", i)
				var g *rg.G
				kind := i % 6
				switch kind {
				case 0:
					g = gen.Random(r, 4+r.Intn(9), r.Float())
				case 1:
					n := 6 + r.Intn(20)
					d := 2 + r.Intn(4)
					if n*d%2 == 1 {
						n++
					}
					g = gen.RandomRegular(r, n, d)
					if g == nil {
						g = gen.Cycle(n)
					}
				case 2:
					g = gen.RandomTree(r, 2+r.Intn(30))
				case 3:
					a := gen.Random(r, 3+r.Intn(5), r.Float())
					g = gen.Copies(a, 2+r.Intn(3))
					if r.Bool(0.5) {
						g = rg.Union(g, gen.Random(r, 1+r.Intn(4), 0.5))
					}
				case 4:
					g = gen.RandomIrregular(r, 24+r.Intn(41))
				case 5:
					// a cell of more than 20 vertices with many distinct neighbour counts: vertex-transitive core + attachments
					n := 22 + r.Intn(30)
					g = gen.Random(r, n, 0.08+0.3*r.Float())
				}
				if g.N >= 21 {
					c.Obs("large_cell_graphs(n>=21)", 1)
				}
				var aut *big.Int
				if g.N <= 40 {
					aut = iso.Automorphisms(g, nil).Order
				}
				name := fmt.Sprintf("seeded#%d", i)
				checkClass(c, "seeded", name, g, c.Pick(6, 12), func(j int) *engine.Rng { return c.Rand("c01-seeded-perm", i*64+j) }, aut)
				if i < 2 {
					c.Sample("seeded", map[string]interface{}{"kind": kind, "n": g.N, "m": g.M(), "g": g.Key()})
				}
			}
		})
	}

	// (d2) big cells with remaining symmetry: a large homogeneous part (so that the first refinement sorts a cell of more
	// than 20 vertices by at least two distinct neighbour counts: the merge phase of the refinement's stable sort)
	// plus small symmetric components that force the search to branch; also complements.
	type part struct {
		name string
		g    *rg.G
	}
	bigParts := func(m int) []part {
		return []part{
			{fmt.Sprintf("K%d", m), gen.Complete(m)}, {fmt.Sprintf("E%d", m), rg.New(m)}, {fmt.Sprintf("C%d", m), gen.Cycle(m)},
			{fmt.Sprintf("K%d,%d", m/2, m-m/2), gen.CompleteMultipartite(m/2, m-m/2)}, {fmt.Sprintf("%dK2", m/2), gen.Copies(gen.Complete(2), m/2)},
			{fmt.Sprintf("star%d", m), gen.CompleteMultipartite(1, m-1)}, {fmt.Sprintf("%dK3", m/3), gen.Copies(gen.Complete(3), m/3)},
		}
	}
	smallParts := []part{{"C3", gen.Cycle(3)}, {"C4", gen.Cycle(4)}, {"C5", gen.Cycle(5)}, {"K4", gen.Complete(4)}, {"P3", gen.PathG(3)}, {"P2", gen.PathG(2)}, {"K1", rg.New(1)}, {"P4", gen.PathG(4)}, {"C6", gen.Cycle(6)}, {"K1,3", gen.CompleteMultipartite(1, 3)}}
	type bigCase struct {
		name string
		g    *rg.G
	}
	var bigCases []bigCase
	sizes := []int{14, 15, 17, 20, 21, 24, 33, 41}
	if c.Thorough() {
		sizes = append(sizes, 62, 85, 128) // more than one merge level of the stable sort (blocks of 20, 40, 80)
	}
	for _, m := range sizes {
		for bi, b := range bigParts(m) {
			for combo := 0; combo < 4; combo++ {
				g := b.g
				name := b.name
				// deterministic choice of 2-3 small parts
				idx := []int{(bi + combo) % len(smallParts), (bi*3 + combo*5 + m) % len(smallParts), (combo*7 + m/3) % len(smallParts)}
				if combo%2 == 0 {
					idx = idx[:2]
				}
				for _, i := range idx {
					g = rg.Union(g, smallParts[i].g)
					name += "+" + smallParts[i].name
				}
				if g.N < 21 {
					g = rg.Union(g, gen.Cycle(21-g.N+3))
					name += "+pad"
				}
				// complements, except of many disjoint triangles: the complement of m K3 (complete multipartite
				// K_{3,...,3}) makes the library's search tree grow exponentially in m (measured: 1.3 s per call at
				// m = 5, more than 30 CPU-s at m = 7), which is slow but not wrong
				if combo == 3 && !(strings.HasSuffix(b.name, "K3") && m/3 >= 5) {
					g = g.Complement()
					name = "co(" + name + ")"
				}
				bigCases = append(bigCases, bigCase{name, g})
			}
		}
	}
	stepBig := c.Pick(3, 1) // quick: every 3rd case (rotating with the seed), thorough: all
	for bi := range bigCases {
		bi := bi
		if (bi+int(c.Seed()))%stepBig != 0 {
			continue
		}
		c.Unit("big-cells/"+bigCases[bi].name, func() {
			bc := bigCases[bi]
			c.Obs("large_cell_graphs(n>=21)", 1)
			c.Obs("big_cell_cases", 1)
			k := c.Pick(40, 160)
			if bc.g.N > 60 {
				k = 24
			}
			checkClass(c, "big-cells", "big-cells:"+bc.name, bc.g, k, func(i int) *engine.Rng { return c.Rand("c01-bigcells-"+bc.name, i) }, big.NewInt(2))
			if bi < 3 {
				c.Sample("big-cells", map[string]interface{}{"name": bc.name, "n": bc.g.N, "m": bc.g.M()})
			}
		})
	}

	// (e0) quick: an eighth of the classes on 9 vertices (8 of 64 parts of search.All(9), rotating with the seed) under 6
	// relabellings each: the smallest witnesses of several seeded defects are 9-vertex graphs that no family contains
	if !c.Thorough() {
		for a := int(c.Seed()) % 8; a < 64; a += 8 {
			a := a
			c.Unit(fmt.Sprintf("classes9-sample/%d", a), func() {
				var list []*rg.G
				if pi := c.Call("input-source search.All(9)", func() {
					gen.ClassesFromLibrary(9, a, 64, func(g *rg.G) { list = append(list, g) })
				}); pi != nil {
					c.Inconclusive("input source search.All(9) panicked: " + pi.String())
					return
				}
				for gi, g := range list {
					gi := gi
					if !checkClass(c, "classes9", g.G6(), g, 6, func(i int) *engine.Rng { return c.Rand("c01-classes9", (a*100000+gi)*32+i) }, nil) && c.Stopped() {
						return
					}
				}
				c.Obs("classes_n=9_checked(sample)", len(list))
			})
		}
	}

	// (e) thorough: classes n = 9 x 16, 1/16 of n = 10 x 8 (input source: search.All, count checked offline)
	if c.Thorough() {
		for a := 0; a < 64; a++ {
			a := a
			c.Unit(fmt.Sprintf("classes9/%d", a), func() {
				cnt := 0
				var list []*rg.G
				if pi := c.Call("input-source search.All(9)", func() {
					cnt = gen.ClassesFromLibrary(9, a, 64, func(g *rg.G) { list = append(list, g) })
				}); pi != nil {
					c.Inconclusive("input source search.All(9) panicked: " + pi.String())
					return
				}
				for gi, g := range list {
					gi := gi
					aut := big.NewInt(1)
					if iso.Invariant(g) != 0 { // cheap proxy: compute Aut only on a sample
						if gi%8 == 0 {
							aut = iso.Automorphisms(g, nil).Order
						}
					}
					checkClass(c, "classes9", g.G6(), g, 16, func(i int) *engine.Rng { return c.Rand("c01-classes9", (a*100000+gi)*32+i) }, aut)
					if c.Stopped() {
						return
					}
				}
				c.Emit("srccount", map[string]int{"n": 9, "count": cnt})
			})
		}
		for a := 0; a < 256; a += 16 {
			a := a
			c.Unit(fmt.Sprintf("classes10/%d", a), func() {
				cnt := 0
				gi := 0
				if pi := c.Call("input-source search.All(10)", func() {
					cnt = gen.ClassesFromLibrary(10, a, 256, func(g *rg.G) {
						gi++
						_ = g
					})
				}); pi != nil {
					c.Inconclusive("input source search.All(10) panicked: " + pi.String())
					return
				}
				// second pass with checks (the iterator value must not be used inside a guarded call of another API)
				var list []*rg.G
				c.Call("input-source search.All(10)", func() {
					gen.ClassesFromLibrary(10, a, 256, func(g *rg.G) { list = append(list, g) })
				})
				for gi, g := range list {
					gi := gi
					checkClass(c, "classes10", g.G6(), g, 8, func(i int) *engine.Rng { return c.Rand("c01-classes10", (a*1000000+gi)*16+i) }, nil)
					if c.Stopped() {
						return
					}
				}
				c.Obs("classes10_checked", cnt)
			})
		}
	}
}

func finish(s *engine.Super) {
	// offline: number of distinct canonical graphs per complete labelled sweep == Polya count
	byN := map[int]map[uint64]int64{}
	src := map[int]int64{}
	s.EachLine("canon", func(line []byte) {
		var kc keyCount
		if json.Unmarshal(line, &kc) == nil {
			if byN[kc.N] == nil {
				byN[kc.N] = map[uint64]int64{}
			}
			byN[kc.N][kc.Key] += kc.Count
		}
	})
	s.EachLine("srccount", func(line []byte) {
		var m map[string]int
		if json.Unmarshal(line, &m) == nil {
			src[m["n"]] += int64(m["count"])
		}
	})
	for n, want := range map[int]string{9: polya.A000088[9]} {
		if got, ok := src[n]; ok && fmt.Sprint(got) != want {
			s.Inconclusive(fmt.Sprintf("input source search.All(%d) produced %d graphs, Polya count is %s (judged by C03)", n, got, want))
		}
	}
	var ns []int
	for n := range byN {
		ns = append(ns, n)
	}
	sort.Ints(ns)
	for _, n := range ns {
		m := byN[n]
		var total int64
		for _, v := range m {
			total += v
		}
		e := n * (n - 1) / 2
		if total != int64(1)<<uint(e) {
			s.Inconclusive(fmt.Sprintf("labelled sweep n=%d incomplete: %d of %d graphs recorded", n, total, int64(1)<<uint(e)))
			continue
		}
		want := polya.Graphs(n).Int64()
		s.AddEval(1)
		s.AddObs(fmt.Sprintf("distinct_canonical_forms_n=%d", n), int64(len(m)))
		nfact := int64(1)
		for i := 2; i <= n; i++ {
			nfact *= int64(i)
		}
		if n >= 4 {
			for _, v := range m {
				if v < nfact {
					s.NTCons += v
				}
			}
		}
		if int64(len(m)) == want {
			continue
		}
		// find two distinct canonical forms that are isomorphic
		buckets := map[uint64][]uint64{}
		for k := range m {
			g := maskToG(n, k)
			inv := iso.Invariant(g)
			buckets[inv] = append(buckets[inv], k)
		}
		reported := 0
		var invs []uint64
		for inv := range buckets {
			invs = append(invs, inv)
		}
		sort.Slice(invs, func(i, j int) bool { return invs[i] < invs[j] })
		for _, inv := range invs {
			ks := buckets[inv]
			sort.Slice(ks, func(i, j int) bool { return ks[i] < ks[j] })
			for i := 0; i < len(ks) && reported < 5; i++ {
				for j := 0; j < i; j++ {
					a, b := maskToG(n, ks[i]), maskToG(n, ks[j])
					if iso.Isomorphic(a, b) {
						s.Violation("canon|two-canonical-forms|"+b.G6(), map[string]interface{}{"n": n, "form1": b.G6(), "form2": a.G6(), "labelled_graphs_with_form1": m[ks[j]], "with_form2": m[ks[i]]},
							fmt.Sprintf("isomorphic labelled graphs on %d vertices are given two different canonical graphs %s and %s (%d distinct forms over all labelled graphs, %d classes)", n, b.G6(), a.G6(), len(m), want),
							"one canonical graph per isomorphism class")
						reported++
						break
					}
				}
			}
		}
		if reported == 0 {
			s.Violation(fmt.Sprintf("canon|count|n=%d", n), map[string]interface{}{"n": n, "distinct": len(m), "polya": want}, fmt.Sprintf("%d distinct canonical graphs", len(m)), fmt.Sprintf("%d (number of isomorphism classes)", want))
		}
	}
}

// Package props links every property monitor into the vrun binary.
package props

import (
	_ "verif/internal/props/c01"
	_ "verif/internal/props/c02"
	_ "verif/internal/props/c03"
	_ "verif/internal/props/c04"
	_ "verif/internal/props/c05"
	_ "verif/internal/props/c06"
	_ "verif/internal/props/c07"
	_ "verif/internal/props/c08"
	_ "verif/internal/props/c09"
	_ "verif/internal/props/c10"
	_ "verif/internal/props/c11"
	_ "verif/internal/props/c12"
	_ "verif/internal/props/c13"
	_ "verif/internal/props/c14"
	_ "verif/internal/props/c15"
	_ "verif/internal/props/c16"
	_ "verif/internal/props/c17"
	_ "verif/internal/props/c18"
	_ "verif/internal/props/c19"
	_ "verif/internal/props/c20"
)

package gen

import (
	"testing"
	"time"

	"verif/internal/oracle/polya"
)

func TestPolya(t *testing.T) {
	for n, s := range polya.A000088 {
		if polya.Graphs(n).String() != s {
			t.Fatalf("n=%d %v != %s", n, polya.Graphs(n), s)
		}
	}
}

func TestClasses(t *testing.T) {
	for n := 0; n <= 8; n++ {
		t0 := time.Now()
		c := Classes(n)
		t.Logf("n=%d classes=%d %v", n, len(c), time.Since(t0))
	}
}

// Package refset is the map-based reference model of finite sets of ints
// (DESIGN.md section 3, oracle "refset").  It shares no code with the library
// under test: a set is a map[int]bool and every operation is the literal
// definition.
package refset

import (
	"fmt"
	"math/big"
	"sort"

	"verif/internal/selfcheck"
)

// Set is a finite set of ints.
type Set map[int]bool

// Of builds the set of the given elements (repeats allowed).
func Of(xs ...int) Set {
	s := Set{}
	for _, x := range xs {
		s[x] = true
	}
	return s
}

// Sorted returns the elements in strictly increasing order (never nil).
func (s Set) Sorted() []int {
	r := make([]int, 0, len(s))
	for x := range s {
		r = append(r, x)
	}
	sort.Ints(r)
	return r
}

// Copy returns an independent copy.
func (s Set) Copy() Set {
	r := Set{}
	for x := range s {
		r[x] = true
	}
	return r
}

// Union returns s ∪ t.
func Union(s, t Set) Set {
	r := s.Copy()
	for x := range t {
		r[x] = true
	}
	return r
}

// Inter returns s ∩ t.
func Inter(s, t Set) Set {
	r := Set{}
	for x := range s {
		if t[x] {
			r[x] = true
		}
	}
	return r
}

// Minus returns s \ t.
func Minus(s, t Set) Set {
	r := Set{}
	for x := range s {
		if !t[x] {
			r[x] = true
		}
	}
	return r
}

// Xor returns the symmetric difference.
func Xor(s, t Set) Set { return Union(Minus(s, t), Minus(t, s)) }

// Subset reports whether every element of sub is in s.
func Subset(sub, s Set) bool {
	for x := range sub {
		if !s[x] {
			return false
		}
	}
	return true
}

// Interval returns {0..n-1} (empty for n <= 0).
func Interval(n int) Set {
	r := Set{}
	for i := 0; i < n; i++ {
		r[i] = true
	}
	return r
}

// Progression returns the documented content of sortints.Range: the elements
// start + i*step (i = 0, 1, 2, ...) that lie between start (inclusive) and end
// (exclusive).  The caller guarantees that the set is finite (step points from
// start towards end) and small.  The walk is done in big integers so that it is
// right up to the limits of int.
func Progression(start, end, step int) Set {
	r := Set{}
	if step == 0 {
		return r
	}
	x, e, st := big.NewInt(int64(start)), big.NewInt(int64(end)), big.NewInt(int64(step))
	for (step > 0 && x.Cmp(e) < 0) || (step < 0 && x.Cmp(e) > 0) {
		r[int(x.Int64())] = true
		x.Add(x, st)
	}
	return r
}

// StrictlyIncreasing reports whether a is strictly increasing.
func StrictlyIncreasing(a []int) bool {
	for i := 1; i < len(a); i++ {
		if a[i-1] >= a[i] {
			return false
		}
	}
	return true
}

// Equal compares a slice with the sorted content of s.
func Equal(a []int, s Set) bool {
	w := s.Sorted()
	if len(a) != len(w) {
		return false
	}
	for i := range a {
		if a[i] != w[i] {
			return false
		}
	}
	return true
}

// SelfCheck compares the map model with bit-mask arithmetic on all pairs of
// subsets of two 6-element universes (small values; the limits of int and their neighbours).
func SelfCheck() error {
	const maxInt = int(^uint(0) >> 1)
	const minInt = -maxInt - 1
	// a small universe, and one made of the limits of int: the model orders by comparison only (sort.Ints, ==, <),
	// it never subtracts two elements, so that it is right where differences and sums of elements overflow
	for _, univ := range [][]int{{-2, -1, 0, 1, 2, 3}, {minInt, minInt + 1, -1, 1, maxInt - 1, maxInt}} {
		if err := selfCheckOn(univ); err != nil {
			return err
		}
	}
	if got := fmt.Sprint(Minus(Interval(5), Of(3, minInt, 1, maxInt)).Sorted()); got != "[0 2 4]" {
		return fmt.Errorf("{0..4} minus {MinInt,1,3,MaxInt} = %s", got)
	}
	if got := Of(maxInt, 0, minInt, -1, maxInt).Sorted(); len(got) != 4 || got[0] != minInt || got[1] != -1 || got[2] != 0 || got[3] != maxInt {
		return fmt.Errorf("Sorted({MaxInt,0,MinInt,-1}) = %v", got)
	}
	if !StrictlyIncreasing([]int{minInt, -1, maxInt}) || StrictlyIncreasing([]int{maxInt, minInt}) || StrictlyIncreasing([]int{0, minInt}) || StrictlyIncreasing([]int{maxInt, maxInt}) {
		return fmt.Errorf("StrictlyIncreasing is wrong at the limits of int")
	}
	if !Equal([]int{minInt, 0, maxInt}, Of(0, maxInt, minInt)) || Equal([]int{0, minInt, maxInt}, Of(0, maxInt, minInt)) || Equal([]int{minInt + 1, 0, maxInt}, Of(0, maxInt, minInt)) {
		return fmt.Errorf("Equal is wrong at the limits of int")
	}
	if got := fmt.Sprint(Progression(10, 0, -3).Sorted()); got != "[1 4 7 10]" {
		return fmt.Errorf("Progression(10,0,-3) = %s", got)
	}
	if got := fmt.Sprint(Progression(0, 10, 3).Sorted()); got != "[0 3 6 9]" {
		return fmt.Errorf("Progression(0,10,3) = %s", got)
	}
	if got := fmt.Sprint(Progression(5, 10, maxInt).Sorted()); got != "[5]" {
		return fmt.Errorf("Progression(5,10,MaxInt) = %s", got)
	}
	if got := len(Progression(-maxInt-1, maxInt, 1<<62)); got != 4 {
		return fmt.Errorf("Progression(MinInt,MaxInt,2^62) has %d elements", got)
	}
	if got := fmt.Sprint(Progression(2, 3, 5).Sorted()); got != "[2]" {
		return fmt.Errorf("Progression(2,3,5) = %s", got)
	}
	return nil
}

// selfCheckOn compares the map model with bit-mask arithmetic on all pairs of subsets of univ (increasing, at most 6 elements).
func selfCheckOn(univ []int) error {
	of := func(mask int) Set {
		s := Set{}
		for i, v := range univ {
			if mask>>uint(i)&1 == 1 {
				s[v] = true
			}
		}
		return s
	}
	mask := func(s Set) int {
		m := 0
		for i, v := range univ {
			if s[v] {
				m |= 1 << uint(i)
			}
		}
		return m
	}
	for a := 0; a < 64; a++ {
		for b := 0; b < 64; b++ {
			A, B := of(a), of(b)
			if mask(Union(A, B)) != a|b || mask(Inter(A, B)) != a&b || mask(Minus(A, B)) != a&^b || mask(Xor(A, B)) != a^b {
				return fmt.Errorf("set algebra differs from bit masks on %v, %v", A.Sorted(), B.Sorted())
			}
			if Subset(B, A) != (b&^a == 0) {
				return fmt.Errorf("Subset differs from bit masks on %v, %v", A.Sorted(), B.Sorted())
			}
		}
		if s := of(a).Sorted(); !StrictlyIncreasing(s) || !Equal(s, of(a)) {
			return fmt.Errorf("Sorted(%v) not increasing", s)
		}
	}
	return nil
}

func init() { selfcheck.Add("refset (map model vs bit masks)", SelfCheck) }

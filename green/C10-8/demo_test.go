// Demonstration for green change C10/8 (graph.Girth stops starting new breadth-first searches as soon as it has
// found a triangle: a girth of 3 cannot be improved).
//
// Run (from the repository root, clean tree or patched tree):
//
//	cp /tmp/green-out/C10/8/demo_test.go graph/zz_green_c10_8_demo_test.go
//	export GOFLAGS=-mod=mod GOPROXY=off GOSUMDB=off GOTOOLCHAIN=local
//	go test -vet=off -count=1 -timeout 300s -v -run 'TestGreenC10_8' ./graph/
//	rm graph/zz_green_c10_8_demo_test.go
//
// TestGreenC10_8_Property checks the property itself: Girth equals the definition (shortest cycle through an edge
// uv = 1 + dist(u,v) in g-uv, -1 for forests) for EVERY labelled graph on at most 6 vertices and for random larger
// graphs (sparse ones with a single triangle placed anywhere in the labelling, dense ones), in dense form, sparse
// form, as a relabelled view and through a caller-implemented Graph.  Passes on BOTH trees.
// TestGreenC10_8_Incidental asserts the OLD amount of work, seen through a caller-implemented Graph that counts the
// calls it receives: for the complete graph K_n the clean tree searches from each of the n-2 start vertices, n
// neighbourhoods in the first search and n-1 in each later one, n+(n-3)*(n-1) Neighbours calls (13, 43, 343 for
// n = 5, 8, 20); patched it is the first search only, n calls.
// Passes on the CLEAN tree, FAILS with the patch.
package graph_test

import (
	"math/rand"
	"testing"

	"github.com/Tom-Johnston/mamba/graph"
	"github.com/Tom-Johnston/mamba/sortints"
)

// c108Counting is a caller-implemented Graph which counts Neighbours calls.
type c108Counting struct {
	g          graph.Graph
	neighbours *int
}

func (c c108Counting) N() int                 { return c.g.N() }
func (c c108Counting) M() int                 { return c.g.M() }
func (c c108Counting) IsEdge(i, j int) bool   { return c.g.IsEdge(i, j) }
func (c c108Counting) Degrees() []int         { return c.g.Degrees() }
func (c c108Counting) Neighbours(v int) []int { *c.neighbours++; return c.g.Neighbours(v) }

// girth by the definition: the shortest cycle through an edge uv has length 1 + dist(u,v) in g-uv.
func c108Girth(g graph.Graph) int {
	n := g.N()
	best := -1
	dist := make([]int, n)
	for u := 0; u < n; u++ {
		for v := 0; v < u; v++ {
			if !g.IsEdge(u, v) {
				continue
			}
			for i := range dist {
				dist[i] = -1
			}
			dist[u] = 0
			q := []int{u}
			for len(q) > 0 {
				x := q[0]
				q = q[1:]
				for y := 0; y < n; y++ {
					if y == x || dist[y] != -1 || !g.IsEdge(x, y) {
						continue
					}
					if (x == u && y == v) || (x == v && y == u) {
						continue
					}
					dist[y] = dist[x] + 1
					q = append(q, y)
				}
			}
			if dist[v] != -1 && (best == -1 || dist[v]+1 < best) {
				best = dist[v] + 1
			}
		}
	}
	return best
}

func c108Sparse(g graph.Graph) *graph.SparseGraph {
	nb := make([]sortints.SortedInts, g.N())
	for i := range nb {
		nb[i] = append([]int{}, g.Neighbours(i)...)
	}
	return graph.NewSparse(g.N(), nb)
}

func c108CheckAll(t *testing.T, g *graph.DenseGraph, perm []int) {
	want := c108Girth(g)
	if got := graph.Girth(g); got != want {
		t.Fatalf("dense: Girth=%d want %d (n=%d edges=%v)", got, want, g.N(), g.Edges)
	}
	if got := graph.Girth(c108Sparse(g)); got != want {
		t.Fatalf("sparse: Girth=%d want %d (n=%d edges=%v)", got, want, g.N(), g.Edges)
	}
	cnt := 0
	if got := graph.Girth(c108Counting{g, &cnt}); got != want {
		t.Fatalf("caller-implemented: Girth=%d want %d (n=%d edges=%v)", got, want, g.N(), g.Edges)
	}
	if perm != nil {
		if got := graph.Girth(graph.InducedSubgraph(g, perm)); got != want {
			t.Fatalf("relabelled view %v: Girth=%d want %d (n=%d edges=%v)", perm, got, want, g.N(), g.Edges)
		}
		if got := graph.Girth(g.InducedSubgraph(perm)); got != want {
			t.Fatalf("relabelled copy %v: Girth=%d want %d (n=%d edges=%v)", perm, got, want, g.N(), g.Edges)
		}
	}
}

func TestGreenC10_8_Property(t *testing.T) {
	rng := rand.New(rand.NewSource(108))
	// every labelled graph on at most 6 vertices
	for n := 0; n <= 6; n++ {
		m := n * (n - 1) / 2
		for mask := 0; mask < 1<<uint(m); mask++ {
			edges := make([]byte, m)
			for e := 0; e < m; e++ {
				if mask>>uint(e)&1 == 1 {
					edges[e] = 1
				}
			}
			var perm []int
			if mask%16 == 0 {
				perm = rng.Perm(n)
			}
			c108CheckAll(t, graph.NewDense(n, edges), perm)
		}
	}
	// larger: random trees with a few extra edges, in random labellings (so the short cycles sit anywhere)
	for iter := 0; iter < 300; iter++ {
		n := 3 + rng.Intn(22)
		g := graph.RandomTree(n, int64(iter))
		for k := rng.Intn(4); k > 0; k-- {
			g.AddEdge(rng.Intn(n), rng.Intn(n))
		}
		c108CheckAll(t, g, rng.Perm(n))
	}
	// larger: random graphs of several densities
	for iter := 0; iter < 300; iter++ {
		n := rng.Intn(16)
		p := []float64{0.1, 0.2, 0.4, 0.7, 1}[rng.Intn(5)]
		c108CheckAll(t, graph.RandomGraph(n, p, int64(1000+iter)), rng.Perm(n))
	}
	// cycles, complete bipartite graphs (no triangle), graphs whose only triangle is on the last three vertices
	for n := 3; n <= 12; n++ {
		c108CheckAll(t, graph.Cycle(n), rng.Perm(n))
		c108CheckAll(t, graph.CompletePartiteGraph(n/2, n-n/2), rng.Perm(n))
		g := graph.Path(n)
		g.AddEdge(n-1, n-3)
		c108CheckAll(t, g, rng.Perm(n))
	}
}

func TestGreenC10_8_Incidental(t *testing.T) {
	for _, n := range []int{5, 8, 20} {
		cnt := 0
		g := c108Counting{graph.CompleteGraph(n), &cnt}
		if got := graph.Girth(g); got != 3 {
			t.Fatalf("Girth(K_%d)=%d", n, got)
		}
		t.Logf("Girth(K_%d): %d Neighbours calls", n, cnt)
		if old := n + (n-3)*(n-1); cnt != old {
			t.Errorf("Girth(K_%d) asked for %d neighbourhoods, a breadth-first search from every start vertex asks for n+(n-3)*(n-1) = %d", n, cnt, old)
		}
	}
}
